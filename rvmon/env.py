"""Source-under-test resolution, seeds, tiers.

Every check process calls ``env.setup()`` before touching ``rv``: it puts
``<root>/src/python`` first on ``sys.path`` and asserts that the imported ``rv``
comes from ``<root>`` (``/repo`` unless ``RVMON_REPO`` names a scratch copy; only
the mutant self-test sets that).  A wrong import is *inconclusive*, never held.
"""
import os
import sys
import logging

VERIF = os.path.dirname(os.path.dirname(os.path.abspath(__file__)))
REPO = os.path.abspath(os.environ.get("RVMON_REPO", "/repo"))
SRC = os.path.join(REPO, "src", "python")
SPEC_PATH = os.path.join(REPO, "specs", "fileformat.yaml")
FIXTURE_DIR = os.path.join(REPO, "tests", "files")
DEPS = os.path.join(VERIF, ".deps")

_ready = False


class WrongSource(Exception):
    pass


def seed() -> int:
    try:
        return int(os.environ.get("VERIF_SEED", "0"))
    except ValueError:
        return 0


def shard_seed(shard: int) -> int:
    return seed() * 1000003 + shard


def setup():
    """Import rv from the tree under test; quieten its logging."""
    global _ready
    if _ready:
        return
    sys.dont_write_bytecode = True
    if SRC in sys.path:
        sys.path.remove(SRC)
    sys.path.insert(0, SRC)
    if os.path.isdir(DEPS) and DEPS not in sys.path:
        sys.path.append(DEPS)
    import rv  # noqa
    import rv.api  # noqa  (importing submodules first trips rv's circular imports)

    here = os.path.realpath(rv.__file__)
    if not here.startswith(os.path.realpath(SRC) + os.sep):
        raise WrongSource(f"rv imported from {here}, expected under {SRC}")
    level = os.environ.get("RVMON_RV_LOGLEVEL")
    if level:
        # the library's diagnostics are switched ON (and swallowed): guarded debug code runs
        logging.disable(logging.NOTSET)
        root = logging.getLogger()
        root.handlers[:] = [logging.NullHandler()]
        root.setLevel(getattr(logging, level))
        logging.getLogger("rv").setLevel(getattr(logging, level))
    else:
        logging.disable(logging.CRITICAL)  # rv logs a warning per odd value; not under test
    _ready = True


def fixtures():
    """All shipped fixture files (sorted, absolute paths)."""
    out = []
    for base, _dirs, files in os.walk(FIXTURE_DIR):
        for f in files:
            if f.endswith((".sunvox", ".sunsynth")):
                out.append(os.path.join(base, f))
    return sorted(out)
