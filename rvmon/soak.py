"""Long-lived mixed workload ("soak"): a pool of projects / synths lives through random public-API histories
(construct, edit, connect, save, load, clone, attach clones, bulk pattern edits, refused and failing operations)
while several monitors watch every step.  Each property's check runs a slice of it and judges its own clause:

  roundtrip   (C01 / C02)  snapshot(load(save(x))) == snapshot(x) for the object just touched
  purity      (C05)        saving does not change the object; two saves give the same bytes
  edit        (C06)        an edit made to a (loaded) object is what a later save/load shows
  isolation   (C17)        no OTHER object of the pool moved
  metadata    (C13)        class-level controller / option tables unchanged
  strictness  (C18)        the process is still in strict mode
  structure   (C07 / C14)  links_consistent and index_coherent on every project of the pool
  encoding    (C10)        for every module of the objects just touched: get_raw(name) is the documented stored form of the
                           value the controller currently reads (whatever history the module has: loaded, reflected, cloned ...)

Histories are deterministic in (seed, shard); every violation carries the last operations of the history.
"""
import random
from io import BytesIO

from . import build, env, gen, monitors, snapshot, spec, workload


def metadata_digest():
    """A cheap, complete fingerprint of the class-level tables (compared by equality)."""
    import enum
    import rv.controller as rvc
    from rv.modules import MODULE_CLASSES
    out = []
    for mtype in sorted(MODULE_CLASSES):
        cls = MODULE_CLASSES[mtype]
        ctl = []
        for name, c in cls.controllers.items():
            vt = c.value_type
            if isinstance(vt, rvc.DependentRange):
                d = (vt.ctl_name, tuple(sorted((str(k), type(r).__name__, r.min, r.max) for k, r in vt.range_map.items())), (vt.default.min, vt.default.max))
            elif isinstance(vt, rvc.Range):
                d = (type(vt).__name__, vt.min, vt.max)
            elif isinstance(vt, type) and issubclass(vt, enum.Enum):
                d = ("enum", tuple((m.name, m.value) for m in vt))
            else:
                d = repr(vt)
            ctl.append((name, c.number, d, repr(c.default), getattr(c, "_attached", None) if not name.startswith("user_defined") else None))
        opts = tuple((n, o.byte, o.bit, o.size, o.number, o.min, o.max, o.inverted, tuple(o.exclusive_of), repr(o.default)) for n, o in sorted(cls.options.items()))
        out.append((mtype, cls.__name__, cls.mgroup, cls.default_flags, cls.flags, tuple(ctl), opts, cls.options_chnm))
    return tuple(out)


class Soak:
    def __init__(self, res, rng, seed, tier, prop, kinds):
        import rv.api as api
        self.api = api
        self.res, self.rng, self.seed, self.tier, self.prop, self.kinds = res, rng, seed, tier, prop, set(kinds)
        self.pool = []          # [obj]
        self.last = {}          # id(obj) -> (snapshot, bytes)
        self.history = []
        self.meta0 = metadata_digest()
        self.counter = 0
        self.fixtures = env.fixtures()

    # ------------------------------------------------------------ helpers
    def snap(self, o):
        return snapshot.snap_project(o) if isinstance(o, self.api.Project) else snapshot.snap_synth(o)

    def report(self, kind, key, what):
        self.res.count(f"soak_{kind}_evaluations", 0)
        if kind in self.kinds:
            self.res.violation(f"{self.prop}:soak:{kind}:{key}", f"{what}; history (last 8 of {len(self.history)}): {self.history[-8:]}",
                               {"history": self.history[-60:], "soak_seed": self.seed})
        else:
            self.res.count(f"soak_other_property_signal_{kind}")

    def remember(self, o):
        try:
            self.last[id(o)] = (self.snap(o), o.read())
        except Exception:
            self.last.pop(id(o), None)

    def add(self, o):
        if len(self.pool) >= 7:
            victim = self.pool.pop(self.rng.randrange(len(self.pool)))
            self.last.pop(id(victim), None)
        self.pool.append(o)
        self.remember(o)

    # ------------------------------------------------------------ operations
    def op_new(self):
        self.counter += 1
        idx = 800000 + self.seed % 1000 * 997 + self.counter
        if self.rng.random() < 0.5:
            c = workload.project_case(self.seed, idx, self.tier, max_modules=4)
            self.add(c.obj)
            return ("new_project", idx)
        types = sorted(T for T in spec.load() if T != "Output")
        T = self.rng.choice(types + ["MetaModule", "Sampler", "MultiSynth", "SpectraVoice"])
        c = workload.module_case(self.seed, idx, self.tier, T, ctx="synth")
        self.add(self.api.Synth(c.obj))
        return ("new_synth", T, idx)

    def op_fixture(self):
        f = self.rng.choice(self.fixtures)
        with open(f, "rb") as fh:
            self.add(workload.load(fh.read()))
        return ("load_fixture", f.rsplit("/", 1)[-1])

    def op_edit(self, o):
        from .checks import c06
        is_loaded = True
        excl = (lambda pth: "/payload/project/" in pth and "/controllers/" in pth)
        applied = c06.mutate_live(o, self.rng, self.rng.randint(1, 3), exclude=excl)
        return ("edit", self.pool.index(o), applied[:3])

    def op_save(self, o):
        before = self.snap(o)
        b1 = o.read()
        after = self.snap(o)
        b2 = o.read()
        self.res.count("soak_purity_evaluations")
        if before != after:
            d = snapshot.diff(before, after)
            self.report("purity", snapshot.field_key(d[0][0]) if d else "?", f"saving changed the object: {d[:2]}")
        elif b1 != b2:
            self.report("purity", "two-saves-differ", "saving the same object twice gave different bytes")
        return ("save", self.pool.index(o))

    def op_roundtrip(self, o, keep):
        S1 = build.norm(self.snap(o), "before")
        raw = o.read()
        try:
            o2 = workload.load(raw)
        except Exception as e:
            self.report("roundtrip", "unloadable:" + workload.exc_key(e), f"the file just written does not load: {e!r}")
            return ("save_load", self.pool.index(o), "unloadable")
        S2 = build.norm(self.snap(o2), "after")
        self.res.count("soak_roundtrip_evaluations")
        self.res.count("soak_edit_evaluations")
        d = snapshot.diff(S1, S2)
        if d:
            kind = "edit" if self.history and self.history[-1][0] == "edit" else "roundtrip"
            self.report(kind, snapshot.field_key(d[0][0]), f"{d[0][0]}: object {d[0][1]}, after save+load {d[0][2]}")
            if kind == "edit":
                self.report("roundtrip", snapshot.field_key(d[0][0]), f"{d[0][0]}: object {d[0][1]}, after save+load {d[0][2]}")
        idx = self.pool.index(o)
        if keep:
            self.add(o2)
        return ("save_load", idx, "kept" if keep else "dropped")

    def op_clone(self, o):
        try:
            c = o.clone()
        except Exception as e:
            self.report("roundtrip", "clone-raises:" + workload.exc_key(e), f"clone() raised {e!r}")
            return ("clone", self.pool.index(o), "raised")
        d = snapshot.diff(build.norm(self.snap(o), "before"), build.norm(self.snap(c), "after"))
        self.res.count("soak_roundtrip_evaluations")
        if d:
            self.report("roundtrip", "clone:" + snapshot.field_key(d[0][0]), f"clone differs at {d[0][0]}: {d[0][1]} vs {d[0][2]}")
        idx = self.pool.index(o)
        self.add(c)
        return ("clone", idx)

    def op_project_structure(self, p):
        api = self.api
        live = [m for m in p.modules if m is not None]
        r = self.rng.random()
        if r < 0.4 and len(live) >= 2:
            f, t = self.rng.choice(live), self.rng.choice(live)
            p.connect(f, ~t if self.rng.random() < 0.3 else t)
            return ("connect", self.pool.index(p), f.index, t.index)
        if r < 0.6:
            # attach a clone of a module taken from any pool object
            src = self.rng.choice(self.pool)
            mods = [m for m in (src.modules if isinstance(src, api.Project) else [src.module]) if m is not None and m.index != 0 or not isinstance(src, api.Project)]
            mods = [m for m in mods if m is not None and type(m).__name__ != "Output"]
            if mods:
                m = self.rng.choice(mods).clone()
                p.attach_module(m)
                return ("attach_clone", self.pool.index(p), type(m).__name__)
        if r < 0.75:
            pats = [q for q in p.patterns if isinstance(q, api.Pattern)]
            if pats:
                q = self.rng.choice(pats)
                from rv.note import NOTECMD
                v = self.rng.randint(0, 129)
                q.set_via_fn(lambda pat, ln, tr: api.Note(note=NOTECMD.C5, vel=v, module=(ln * 7 + tr) % 256))
                return ("bulk_pattern", self.pool.index(p))
        if r < 0.85:
            p.attach_pattern(api.Pattern(tracks=self.rng.randint(1, 4), lines=self.rng.randint(1, 6), name=f"s{self.counter}"))
            return ("attach_pattern", self.pool.index(p))
        if r < 0.88:
            # MultiCtl housekeeping: pull the value back from a target (with and without sending it out again)
            mcs = [m for m in live if type(m).__name__ == "MultiCtl" and m.out_links]
            if mcs:
                mc = self.rng.choice(mcs)
                prop_ = self.rng.random() < 0.5
                try:
                    mc.reflect(self.rng.randrange(len(mc.out_links)), propagate=prop_)
                    outcome = "ok"
                except Exception as e:      # unmapped index, windows outside the value domain ...: only a perturbation here
                    outcome = type(e).__name__
                return ("reflect", self.pool.index(p), mc.index, prop_, outcome)
            others = [m for m in live if m.index != 0]
            if others:
                m = self.rng.choice(others)
                if self.rng.random() < 0.5:
                    p.attach_module(m)          # already attached: nothing to do
                else:
                    p += m
                return ("reattach", self.pool.index(p), m.index)
        if r < 0.92:
            p.attach_module(None)
            return ("empty_position", self.pool.index(p))
        p.new_module(api.m.Amplifier, name=f"a{self.counter}")
        return ("new_module", self.pool.index(p))

    def op_observe(self, o):
        """Read-only helpers: printing, tabular views, the play-order view, attribute listings.  Looking is not touching:
        the caller reports NO touched object, so every pool object (this one included) is compared afterwards."""
        api = self.api
        done = []
        mods = [m for m in o.modules if m is not None] if isinstance(o, api.Project) else ([o.module] if o.module is not None else [])
        repr(o), str(o), f"{o!s:>5}", bool(o)
        for m in mods[:6]:
            repr(m), str(m), dir(m), f"{m}", bool(m), m == m, hash(m)
            list(m.controllers), list(m.options)
            for name in list(type(m).controllers)[:40]:
                try:
                    getattr(m, name)
                    m.get_raw(name)
                except Exception:
                    pass
            done.append("module")
        if isinstance(o, api.Project):
            for q in o.patterns[:6]:
                if isinstance(q, api.Pattern):
                    repr(q), str(q), f"{q}", q == q, (hash(q) if q.__hash__ else None)
                    q.tabular_repr()
                    for line in q.data[:4]:
                        for n in line[:4]:
                            str(n), repr(n), n.tabular_repr(), n.is_empty(), n.module_index
                            try:
                                n.mod
                            except Exception:
                                pass
                    done.append("pattern")
                elif q is not None:
                    try:
                        q.source_pattern
                    except Exception:
                        pass
            try:
                for i, _ in enumerate(o.pattern_lines()):
                    if i > 64:
                        break
                done.append("pattern_lines")
            except Exception:
                done.append("pattern_lines-raised")
        return ("observe", self.pool.index(o), tuple(sorted(set(done))))

    def op_failing(self):
        api = self.api
        r = self.rng.random()
        try:
            if r < 0.25:
                api.read_sunvox_file(BytesIO(b"SVOX\0\0\0\0VERS\x04\0\0\0\x01\x02\x01\x02STYP\x03\0\0\0Zz\0SEND\0\0\0\0"))
            elif r < 0.45:
                api.read_sunvox_file("/nonexistent/rvmon-soak.sunvox")
            elif r < 0.6:
                projs = [o for o in self.pool if isinstance(o, api.Project)]
                if len(projs) >= 2:
                    a, b = self.rng.sample(projs, 2)
                    mods = [m for m in a.modules if m is not None and m.index != 0]
                    if mods:
                        b.attach_module(self.rng.choice(mods))
                    pats = [q for q in a.patterns if q is not None]
                    if pats:
                        b.attach_pattern(self.rng.choice(pats))
            elif r < 0.8:
                api.m.MetaModule(user_defined_controllers=None)
            else:
                api.m.Amplifier(volume=99999)
        except Exception:
            pass
        return ("failing_operation", round(r, 2))

    # ------------------------------------------------------------ invariants
    def check_others(self, touched):
        api = self.api
        for o in self.pool:
            if o in touched or id(o) not in self.last:
                continue
            self.res.count("soak_isolation_evaluations")
            s0, b0 = self.last[id(o)]
            try:
                s1, b1 = self.snap(o), o.read()
            except Exception as e:
                self.report("isolation", "other-object-unsaveable", f"an object that was not touched can no longer be saved: {e!r}")
                self.last.pop(id(o), None)
                continue
            if s1 != s0 or b1 != b0:
                d = snapshot.diff(s0, s1)
                self.report("isolation", snapshot.field_key(d[0][0]) if d else "bytes", f"pool object #{self.pool.index(o)} changed although it was not touched: {d[:2] if d else 'saved bytes differ'}")
                self.last[id(o)] = (s1, b1)
        for o in self.pool:
            if isinstance(o, api.Project):
                self.res.count("soak_structure_evaluations")
                pr = monitors.links_consistent(o) + monitors.index_coherent(o)
                if pr:
                    self.report("structure", pr[0].split(":")[0][:40], f"pool project #{self.pool.index(o)}: {pr[:2]}")

    def check_globals(self):
        import rv.errors as errors
        self.res.count("soak_strictness_evaluations")
        if errors.RAISE_CONTROLLER_VALUE_ERRORS is not True:
            self.report("strictness", "flag", f"the process is in lenient mode ({errors.RAISE_CONTROLLER_VALUE_ERRORS!r})")
            errors.RAISE_CONTROLLER_VALUE_ERRORS = True
        self.res.count("soak_metadata_evaluations")
        if metadata_digest() != self.meta0:
            self.report("metadata", "class-tables", "class-level controller/option tables changed during the session")
            self.meta0 = metadata_digest()

    def check_encoding(self, touched):
        api = self.api
        by = spec.by_mtype()
        for o in touched:
            mods = [m for m in o.modules if m is not None] if isinstance(o, api.Project) else ([o.module] if o.module is not None else [])
            for m in mods:
                t = by.get(m.mtype)
                if t is None or m.mtype == "MetaModule":
                    continue
                for sc in t.controllers:
                    if not sc.attached or sc.kind not in ("range", "compact", "no_offset", "enum", "bool"):
                        continue
                    try:
                        v = getattr(m, sc.name)
                        raw = m.get_raw(sc.name)
                    except Exception as e:
                        self.report("encoding", f"raises:{t.cls_name}.{sc.name}", f"reading {t.cls_name}.{sc.name} / its stored form raised {e!r}")
                        continue
                    v = getattr(v, "value", v)
                    if v is None:
                        continue
                    want = sc.stored(v)
                    self.res.count("soak_encoding_evaluations")
                    if raw != want:
                        self.report("encoding", f"{t.cls_name}.{sc.name}", f"{t.cls_name}.{sc.name} reads {v!r} but its stored form is {raw!r} (documented: {want!r})")

    # ------------------------------------------------------------ driver
    def run(self, steps):
        api = self.api
        for _ in range(3):
            self.history.append(self.op_new())
        for step in range(steps):
            r = self.rng.random()
            touched = []
            o = self.rng.choice(self.pool)
            try:
                if r < 0.10:
                    op = self.op_new()
                    touched = [self.pool[-1]]
                elif r < 0.15:
                    op = self.op_fixture()
                    touched = [self.pool[-1]]
                elif r < 0.40:
                    op = self.op_edit(o)
                    touched = [o]
                elif r < 0.50:
                    op = self.op_save(o)
                    touched = [o]
                elif r < 0.68:
                    n_before = len(self.pool)
                    op = self.op_roundtrip(o, keep=self.rng.random() < 0.5)
                    touched = [o] + ([self.pool[-1]] if op[-1] == "kept" else [])
                elif r < 0.76:
                    op = self.op_clone(o)
                    touched = [o, self.pool[-1]]
                elif r < 0.80:
                    op = self.op_observe(o)
                    touched = []
                elif r < 0.92:
                    projs = [x for x in self.pool if isinstance(x, api.Project)]
                    if not projs:
                        continue
                    o = self.rng.choice(projs)
                    op = self.op_project_structure(o)
                    touched = [o]
                else:
                    op = self.op_failing()
                    touched = []
            except Exception as e:
                self.history.append(("raised", repr(e)[:80]))
                self.report("roundtrip", "operation-raised:" + workload.exc_key(e), f"a public operation raised {e!r}")
                continue
            self.history.append(op)
            self.res.count("soak_steps")
            self.res.hist("soak_ops", op[0])
            self.res.case((self.seed, step, op[0]))
            self.check_others(touched)
            if "encoding" in self.kinds:
                self.check_encoding([t for t in touched if t in self.pool])
            for t in touched:
                if t in self.pool:
                    self.remember(t)
            if step % 5 == 0:
                self.check_globals()
        self.check_globals()
        self.res.sample({"soak_history_head": [list(map(str, h)) for h in self.history[:12]], "steps": steps, "pool": len(self.pool)})


def run(res, seed, tier, prop, kinds, steps):
    monitors.install()
    rng = random.Random(seed * 7919 + 17)
    Soak(res, rng, seed, tier, prop, kinds).run(steps)
