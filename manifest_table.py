# Table consumed by gen_manifest.py.  add(id, category, technique, level text, level note, DESIGN ref)
NOTES = ("Runtime monitoring family. Every check runs the real rv code from /repo's working tree under generated "
         "workloads with monitors attached; verdicts are three-valued (exit 0 held on observed / 1 VIOLATION / 2 INCONCLUSIVE). "
         "Genuine defects found are in known_findings.json; see DESIGN.md sections 5 and 9.")
NOT_APPLICABLE = {}
TB = "CPython 3.12, PyYAML, rvmon.spec (independent YAML reader)"

add("C13", "exploration", "runtime monitor at a quiescent point: live class registry vs independent spec reader, domain enumerated completely",
    "Walks the live rv.modules.MODULE_CLASSES after import and compares all 43 types / 502 controllers / 49 options field by field "
    "(order, numbering, kind, bounds, enum members after mangling, defaults, unit tables, option byte/bit/size/number/min/max/inversion/exclusivity, options chunk number) "
    "with an independent reading of specs/fileformat.yaml. The domain is finite and enumerated completely (exhaustive:true); thorough additionally regenerates the base classes with genrv into a scratch dir and diffs them.",
    TB + "; extras beyond the spec list tolerated only when unattached and after all spec controllers", "DESIGN.md 2/C13")

add("C09", "exploration", "runtime contract probes on real module instances against the independent spec reader (boundary classes enumerated completely, both modes, both assignment paths)",
    "For all 43 types and 502 controllers: the default observed on fresh instances equals the spec; every boundary class (min-1, min, min+1, interior, max-1, max, max+1, far out, every enum member by value/member/name, invalid values and names, booleans and truthy ints) is assigned through setattr and through constructor keywords, in strict and in lenient mode, under every unit of unit-dependent ranges; read-back, rejection with ControllerValueError and retention of the previous value are observed.",
    TB + "; lenient-mode treatment of out-of-range values observed, not judged", "DESIGN.md 2/C09")
add("C10", "exploration", "complete enumeration of (controller, unit, value) through set_raw/getattr/get_raw/pattern_value on real instances, arithmetic oracle from the spec",
    "All integer values of all 502 controllers (every unit variant), all enum members, both booleans and a user-defined representative (3.65M pairs) are driven through the real encode/decode/pattern functions on both tiers (exhaustive:true); thorough repeats everything through modules obtained by clone() (the reader's controllers_loaded path).",
    TB, "DESIGN.md 2/C10")
add("C11", "exploration", "model-based monitor: option assignments on real modules observed in memory, after clone(), after a project round trip, and in the independently decoded options record",
    "Bit-disjointness from the live Option objects and from the spec; every representable value of every option alone (complete), all option pairs, exclusivity sequences, clamping probes and random full assignments via setattr/constructor; the options CHDT bytes of the written file are decoded without rv and compared with the model.",
    TB + ", rvmon.iffparse", "DESIGN.md 2/C11")
add("C12", "exploration", "complete enumeration of packed sub-field triples on real Note/Visualization objects + independent byte-level oracle for cells, patterns, SMII, SFGS",
    "All 4 x 65536 x 256 (old word, sub-field, new value) triples of the Note setters and all getter words on both tiers (exhaustive:true); every NOTECMD x velocity, each 16-bit field completely; pattern images through Pattern.raw_data and through written files (PDTA compared byte for byte without rv); visualization word products; SMII/SFGS through save and load.",
    "CPython struct, rvmon.iffparse; cell layout per DESIGN.md 1.5", "DESIGN.md 2/C12")
add("C07", "exploration", "model-based history checker: edge-set model stepped with the real connect/>>/<</~ after every operation + links_consistent invariant (also an icontract post-condition on Project.connect)",
    "Breadth-first over all requests of a 44-operand alphabet in every reachable link-table state for N=3 (depth 3 complete on thorough, sampled on quick; N=4 depth 2 on thorough), plus random sequences up to length 40 for N<=8 including lists with repeated modules, self pairs, and cross-project operands.",
    "edge-set model in rvmon/checks/c07.py; icontract 2.7.3 (builtin wrapper fallback)", "DESIGN.md 2/C07")
add("C14", "exploration", "model-based history checker: slot-list model + index_coherent invariant after every attach/new/+=/pattern/Note.mod/save-load operation",
    "Random operation sequences from every gap pattern over <=6 slots (each built and loaded; start-state axis exhaustive), with foreign and duplicate modules/patterns, lists containing a foreign module, Note.mod get/set and interleaved save/load.",
    "slot model in rvmon/checks/c14.py", "DESIGN.md 2/C14")
add("C18", "fault_enumeration", "fault injection under monitors: failing file objects at every I/O call index, sys.monitoring line failpoints in rv code, truncation, corruption, failing open(); strictness flag and file handles observed around every (nested) read_sunvox_file",
    "For all fixtures and generated nested files (MetaModule in MetaModule, sampler effect): a fault at every read/seek/tell index, at every chunk boundary, at every distinct rv source line reached (first+last occurrence; sampled on quick for most files), corruption making handlers raise, missing path, failing open; both initial flag values; BytesIO, str and Path sources. Outer and nested calls are judged on return and on raise; Path.open is patched to observe .closed; ResourceWarning is a second channel.",
    "sys.monitoring (3.12); failpoints exclude the mechanism's own bookkeeping statements (see assumptions in evidence)", "DESIGN.md 2/C18")
add("C19", "fault_enumeration", "fault injection in the user callable at every cell / yield index under a before/after monitor of Pattern contents and note ownership",
    "All shapes up to 8x8 with a failure at every (line, track) for set_via_fn and after every yield count for set_via_gen (with and without scribbling on the scratch array), attached and unattached; random larger shapes and chains of 2-5 edits; success paths checked cell by cell and for note.pattern/note.project/note.mod.",
    "none beyond CPython", "DESIGN.md 2/C19")
add("C20", "exploration", "runtime monitor of delivered values: complete input axis 0..32768 per sampled parameter tuple through a real in-project MultiCtl and through convert_value; macro on every target",
    "MultiCtl.macro on every (type, attached controller) and on random groups, refusal probes (17+ targets, two per module); delivery through real links with random windows/orientation/gain/quantization/monotone curves checked for range containment, monotonicity and untouched targets of unset mappings.",
    TB, "DESIGN.md 2/C20")
