# Table consumed by gen_manifest.py.  add(id, category, technique, level text, level note, DESIGN ref)
NOTES = ("Runtime monitoring family. Every check runs the real rv code from /repo's working tree under generated "
         "workloads with monitors attached; verdicts are three-valued (exit 0 held on observed / 1 VIOLATION / 2 INCONCLUSIVE). "
         "Genuine defects found are in known_findings.json; see DESIGN.md sections 5 and 9.")
NOT_APPLICABLE = {}
TB = "CPython 3.12, PyYAML, rvmon.spec (independent YAML reader)"

add("C13", "exploration", "runtime monitor at a quiescent point: live class registry vs independent spec reader, domain enumerated completely",
    "Walks the live rv.modules.MODULE_CLASSES after import and compares all 43 types / 502 controllers / 49 options field by field "
    "(order, numbering, kind, bounds, enum members after mangling, defaults, unit tables, option byte/bit/size/number/min/max/inversion/exclusivity, options chunk number) "
    "with an independent reading of specs/fileformat.yaml. The domain is finite and enumerated completely (exhaustive:true); thorough additionally regenerates the base classes with genrv into a scratch dir and diffs them.",
    TB + "; extras beyond the spec list tolerated only when unattached and after all spec controllers", "DESIGN.md 2/C13")
