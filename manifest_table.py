# Table consumed by gen_manifest.py.  add(id, category, technique, level text, level note, DESIGN ref)
NOTES = ("Runtime monitoring family. Every check runs the real rv code from /repo's working tree under generated "
         "workloads with monitors attached; verdicts are three-valued (exit 0 held on observed / 1 VIOLATION / 2 INCONCLUSIVE). "
         "Genuine defects found are in known_findings.json; see DESIGN.md sections 5 and 9.")
NOT_APPLICABLE = {}
TB = "CPython 3.12, PyYAML, rvmon.spec (independent YAML reader)"

add("C13", "exploration", "runtime monitor at a quiescent point: live class registry vs independent spec reader, domain enumerated completely",
    "Walks the live rv.modules.MODULE_CLASSES after import and compares all 43 types / 502 controllers / 49 options field by field "
    "(order, numbering, kind, bounds, enum members after mangling, defaults, unit tables, option byte/bit/size/number/min/max/inversion/exclusivity, options chunk number) "
    "with an independent reading of specs/fileformat.yaml. The domain is finite and enumerated completely (exhaustive:true); thorough additionally regenerates the base classes with genrv into a scratch dir and diffs them.",
    TB + "; extras beyond the spec list tolerated only when unattached and after all spec controllers", "DESIGN.md 2/C13")

add("C09", "exploration", "runtime contract probes on real module instances against the independent spec reader (boundary classes enumerated completely, both modes, both assignment paths)",
    "For all 43 types and 502 controllers: the default observed on fresh instances equals the spec; every boundary class (min-1, min, min+1, interior, max-1, max, max+1, far out, every enum member by value/member/name, invalid values and names, booleans and truthy ints) is assigned through setattr and through constructor keywords, in strict and in lenient mode, under every unit of unit-dependent ranges; read-back, rejection with ControllerValueError and retention of the previous value are observed.",
    TB + "; lenient-mode treatment of out-of-range values observed, not judged", "DESIGN.md 2/C09")
add("C10", "exploration", "complete enumeration of (controller, unit, value) through set_raw/getattr/get_raw/pattern_value on real instances, arithmetic oracle from the spec",
    "All integer values of all 502 controllers (every unit variant), all enum members, both booleans and a user-defined representative (3.65M pairs) are driven through the real encode/decode/pattern functions on both tiers (exhaustive:true); thorough repeats everything through modules obtained by clone() (the reader's controllers_loaded path).",
    TB, "DESIGN.md 2/C10")
add("C11", "exploration", "model-based monitor: option assignments on real modules observed in memory, after clone(), after a project round trip, and in the independently decoded options record",
    "Bit-disjointness from the live Option objects and from the spec; every representable value of every option alone (complete), all option pairs, exclusivity sequences, clamping probes and random full assignments via setattr/constructor; the options CHDT bytes of the written file are decoded without rv and compared with the model.",
    TB + ", rvmon.iffparse", "DESIGN.md 2/C11")
add("C12", "exploration", "complete enumeration of packed sub-field triples on real Note/Visualization objects + independent byte-level oracle for cells, patterns, SMII, SFGS",
    "All 4 x 65536 x 256 (old word, sub-field, new value) triples of the Note setters and all getter words on both tiers (exhaustive:true); every NOTECMD x velocity, each 16-bit field completely; pattern images through Pattern.raw_data and through written files (PDTA compared byte for byte without rv); visualization word products; SMII/SFGS through save and load.",
    "CPython struct, rvmon.iffparse; cell layout per DESIGN.md 1.5", "DESIGN.md 2/C12")
add("C07", "exploration", "model-based history checker: edge-set model stepped with the real connect/>>/<</~ after every operation + links_consistent invariant (also an icontract post-condition on Project.connect)",
    "Breadth-first over all requests of a 44-operand alphabet in every reachable link-table state for N=3 (depth 3 complete on thorough, sampled on quick; N=4 depth 2 on thorough), plus random sequences up to length 40 for N<=8 including lists with repeated modules, self pairs, and cross-project operands.",
    "edge-set model in rvmon/checks/c07.py; icontract 2.7.3 (builtin wrapper fallback)", "DESIGN.md 2/C07")
add("C14", "exploration", "model-based history checker: slot-list model + index_coherent invariant after every attach/new/+=/pattern/Note.mod/save-load operation",
    "Random operation sequences from every gap pattern over <=6 slots (each built and loaded; start-state axis exhaustive), with foreign and duplicate modules/patterns, lists containing a foreign module, Note.mod get/set and interleaved save/load.",
    "slot model in rvmon/checks/c14.py", "DESIGN.md 2/C14")
add("C18", "fault_enumeration", "fault injection under monitors: failing file objects at every I/O call index, sys.monitoring line failpoints in rv code, truncation, corruption, failing open(); strictness flag and file handles observed around every (nested) read_sunvox_file",
    "For all fixtures and generated nested files (MetaModule in MetaModule, sampler effect): a fault at every read/seek/tell index, at every chunk boundary, at every distinct rv source line reached (first+last occurrence; sampled on quick for most files), corruption making handlers raise, missing path, failing open; both initial flag values; BytesIO, str and Path sources. Outer and nested calls are judged on return and on raise; Path.open is patched to observe .closed; ResourceWarning is a second channel.",
    "sys.monitoring (3.12); failpoints exclude the mechanism's own bookkeeping statements (see assumptions in evidence)", "DESIGN.md 2/C18")
add("C19", "fault_enumeration", "fault injection in the user callable at every cell / yield index under a before/after monitor of Pattern contents and note ownership",
    "All shapes up to 8x8 with a failure at every (line, track) for set_via_fn and after every yield count for set_via_gen (with and without scribbling on the scratch array), attached and unattached; random larger shapes and chains of 2-5 edits; success paths checked cell by cell and for note.pattern/note.project/note.mod.",
    "none beyond CPython", "DESIGN.md 2/C19")
add("C20", "exploration", "runtime monitor of delivered values: complete input axis 0..32768 per sampled parameter tuple through a real in-project MultiCtl and through convert_value; macro on every target",
    "MultiCtl.macro on every (type, attached controller) and on random groups, refusal probes (17+ targets, two per module); delivery through real links with random windows/orientation/gain/quantization/monotone curves checked for range containment, monotonicity and untouched targets of unset mappings.",
    TB, "DESIGN.md 2/C20")

TB2 = "CPython 3.12, rvmon.snapshot (attribute catalogue), rvmon.gen/build (AD generator and randomised API histories)"
add("C01", "exploration", "round-trip monitor over generated API histories: snapshot(load(save(build(AD)))) == norm(snapshot) through the attribute catalogue, with ambient contracts (links_consistent, index_coherent, save_is_pure)",
    "Generated projects (all 42 attachable types round-robin, empty positions, link graphs, patterns/clones/empty slots, width-boundary project fields, Unicode names straddling the 32-byte limit) built through randomised public API histories, saved, loaded and compared field by field; the build itself is gated against the description.",
    TB2 + "; normalisation limited to the storage limits named in the property (DESIGN 1.4)", "DESIGN.md 2/C01")
add("C02", "exploration", "round-trip monitor per module type through three serialisation contexts (Synth, clone(), in-project) against the attribute catalogue",
    "Every one of the 42 non-Output types is generated (boundary-biased controllers under random units, options, MIDI bindings, payload arrays within element types) and pushed through Synth save/load, Module.clone() and a project save/load; all three results must equal the original; Synth() without module must refuse without writing.",
    TB2, "DESIGN.md 2/C02")
add("C03", "exploration", "independent decoder (built from the format documentation, no rv import) as an output monitor on every file written by the workloads; structural rules + decoded content == public state",
    "Every file written by the C01/C02/C15/C16 workloads is parsed completely by rvmon.refcodec; structural rules of the property are asserted on each file and each decoded field is compared with the object's public state (so symmetric writer+reader errors are visible). The oracle is calibrated against the 52 SunVox-written fixtures on every run.",
    "rvmon.refcodec/iffparse/spec (no rv import, enforced in setup.sh); interpretive decisions DESIGN.md 1.5", "DESIGN.md 2/C03")
add("C04", "exploration", "independent reference encoder + structure-preserving edit families as input generators; loaded public state compared with what the documented encoding denotes",
    "Reference-encoded descriptions with encoder choices rv never makes; all fixtures against the independent decoder; an unknown chunk at every chunk boundary (also inside embedded projects/effects); each optional chunk dropped; CVAL lists truncated at every length; module positions and link consistency checked.",
    "rvmon.refcodec (encoder+decoder), documents as listed in DESIGN.md 1.5", "DESIGN.md 2/C04")
add("C05", "exploration", "history checker over repeated load/save cycles on fixtures, generated files and structure-preserving byte mutants; save_is_pure monitor on every write",
    "Up to 4 cycles per loadable file: Y=save(load(X)) must load and be reproduced byte for byte by every later cycle; CVAL/option/link/note/CMID bytes are mutated to arbitrary incl. out-of-range values; purity (snapshot before == after, two saves equal) on every save.",
    TB2 + ", rvmon.iffparse for mutations", "DESIGN.md 2/C05")
add("C06", "exploration", "differential monitor: load -> one catalogued public edit -> snapshot -> save -> load -> snapshot, over the whole attribute catalogue of each file",
    "For every fixture and generated files, every serialized attribute class in the catalogue of the loaded object (project fields, common module fields, controllers, options, MIDI bindings, payload elements incl. sampler samples/envelopes/maps/effect and embedded projects, pattern fields and cells) is edited to a new in-domain value; the edit must be visible, isolated (known couplings excepted) and survive save/load.",
    TB2, "DESIGN.md 2/C06")
add("C08", "exploration", "round-trip monitor over reachable link-table states and file variants built without rv (SLnK all-present / subset / all-absent / trailing -1) + links_consistent after every load",
    "All link-table states reachable for N=3 within depth 2 of the C07 alphabet (sampled on quick) and random graphs for N<=8 (cycles, fan-in/out, interior freed slots, links to output) are saved and loaded natively and through four file variants; tables must be equal up to trailing freed slots (edges + consistency for the all-absent variant).",
    "rvmon.iffparse; C07 operand alphabet", "DESIGN.md 2/C08")
add("C15", "exploration", "recursive round-trip monitor on generated MetaModules in three contexts + independent count of CVAL/label/mapping chunks in the written bytes",
    "MetaModules with forced nesting (depth 0..2 quick, 0..3 thorough), counts {0,1,2,3,27,95,96,random}, mappings onto every controller kind incl. unset/dangling, labels at arbitrary indices; compared stand-alone, cloned and in-project through the catalogue (embedded project recursively, count, labels, mappings, visible and stored user values); exactly 5+n CVALs.",
    TB2 + ", rvmon.iffparse", "DESIGN.md 2/C15")
add("C16", "exploration", "round-trip monitor + independent decode of the instrument record / sample headers / envelope chunks at documented offsets; legacy fixture variants built without rv",
    "Generated samplers (slot subsets incl. 0 and 127, every format x channel, odd byte tails, width-boundary header fields, 0..64-point envelopes at 16-bit extremes, note maps, vibrato, editor fields, effects of any type) through synth/clone/project; the 400-byte record is decoded at documented offsets; legacy variants (no envelope chunks with randomised legacy fields, wiped signature, truncated record) are checked against y*0x200+range_min and for no data loss on re-save.",
    TB2 + ", rvmon.refcodec", "DESIGN.md 2/C16")
add("C17", "exploration", "differential isolation monitor (mutate A, observe snapshot+bytes of B and of long-lived sentinels) + structural alias scan of instance state",
    "For all 43 types, Project, Pattern, PatternClone, Synth: B is a fresh instance, a clone (both directions), a second load of the same bytes, or a generated-vs-fresh pair; every catalogued mutation class of A is applied and B must not move; an alias scan walks __dict__/slots/containers of both and reports any shared mutable object; sentinels of every type are re-checked after each type.",
    TB2, "DESIGN.md 2/C17")

# ---- workloads added after the third seeding round (DESIGN 9.7): appended to the level text of each check
EXTRA = {
 "C12": " Visualization words are also edited as they live on modules; out-of-width sub-field arguments must clamp or mask; images with blank lines in the operation sequences.",
 "C02": " An earlier clone is edited in place and dropped, then the untouched original is cloned again and compared. A save that fails inside (module-less effect synth, unpackable embedded field) is repaired and repeated; modules are also cloned while attached and linked.",
 "C03": " A module that is attached to a project is also written as a stand-alone synth and judged. Files are also written from objects holding out-of-range public values, from fresh modules edited element by element, and from projects with sibling MetaModules.",
 "C04": " Half of the encoded cases are loaded a second time after the first result was edited in place. The visible value of every exposed MetaModule controller is judged against the documented rule resolved through nested MetaModules from the bytes alone; older sampler layouts built without rv.",
 "C05": " Inputs also come from another writer: the independent reference encoder with random format choices, incl. payload-heavy types with zero-length last samples.",
 "C06": " MetaModule u_<label> aliases are edited through rvmon.aliasprobe (the value lands on the labelled controller only).",
 "C07": " Operator chains of 2-5 operators through lists are judged as one request per operator plus the value each operator returns. Also with only the modules kept by the caller, inside deep copies, with 300+ modules, with re-attached and cloned modules between requests.",
 "C08": " Half of the states carry a random (also very old) version stamp; hubs with 257-330 links give slot numbers beyond 255. Random flag words; the same file name rewritten (same size, same mtime) and loaded by name.",
 "C09": " set_raw (stored encoding) is a third assignment path; MetaModule u_<label> aliases are probed for range enforcement. Keyword-first constructions precede everything else; held out-of-range values are re-assigned in strict mode; enum spellings through MetaModule proxies.",
 "C10": " User-defined proxies are enumerated fresh, through a file, after the count was lowered and raised, and under every unit of all six unit-dependent targets after the unit was changed and the mappings re-derived. Surplus-CVAL files for every type; reflect histories; proxy CVAL bytes of both writers parsed without rv; soak slice with the encoding invariant.",
 "C11": " A quarter of the random cases start from a generated instance (samples, long envelopes, embedded project) and half see non-option traffic (controller writes, envelopes, hidden user-defined slots, embedded controllers) before observation.",
 "C13": " The comparison is repeated after a hostile workload and after an application-style subclass of every module class was defined.",
 "C14": " Lists may name a new module twice; Note.mod is probed after the pattern's cells were replaced in bulk (fn, gen, gen with scribbling). Worlds may live inside a constructed MetaModule; new_module with foreign modules and a hand-made second Output are operations.",
 "C15": " Sibling MetaModules with byte-identical embedded projects are loaded and one is edited; stored user values are desynchronised and the count raised.",
 "C16": " The loaded instrument is edited in place (half of the cases after one save) incl. dict-level note-map mutators and saved again; record versions are arbitrary.",
 "C17": " Pairs of MetaModules carrying the same labels on different slots are addressed alternately through u_<label>.",
 "C18": " An implementation-independent monitor compares the process's open descriptors (/proc/self/fd) before and after every load; directory paths are a fault kind.",
 "C19": " Prefill contains module-only, note-only and empty cells; successful edits also move the pattern's own cell objects to other cells.",
 "C20": " Bundles with a history (targets unplugged after linking, unit-dependent targets under every unit, bystander modules) are driven on sampled inputs and every controller of every module is compared before/after. Bundles across project levels (MultiCtl -> MetaModule slot -> embedded MultiCtl) and a served-at-all check for every live mapped link.",
}
# rounds 6-8
EXTRA2 = {
 "C01": " Written files are also re-loaded by a fresh interpreter; option records that are all defaults but one are generated.",
 "C02": " Written files are also re-loaded by a fresh interpreter; array chunks are filled in place after reset(); the module is also saved among other modules of its own type.",
 "C04": " Ids the format defines for another level are inserted where they mean nothing, and the plain file is loaded again afterwards; patterns are resized before their notes are first read.",
 "C05": " A save made before anything looked at the loaded object must equal the save after inspection; API-made objects are exported / saved / cloned in several orders; over-long note blocks.",
 "C06": " Sparse note-block images are assigned over existing events; the tail of a sampler's note map is un-mapped.",
 "C07": " Operands are also one-shot iterables producing fresh ~wrappers; foreign operands include other projects' Output modules.",
 "C08": " A collected chunk sequence (list(project.chunks())) written out must equal project.read().",
 "C10": " Proxy slots holding the target's default while the embedded controller holds something else go through files; the Sampler's instrument-record controllers are checked on Samplers handed a chunk through load_chunk() and on files without an instrument record.",
 "C11": " Two modules kept in step by change handlers (instance attributes / subclass methods) never show two exclusive options on; options are also edited inside a loaded Sampler's effect slot.",
 "C12": " Cells are also set from a scratch buffer that is re-used right afterwards.",
 "C13": " ... and after controller-adding subclasses were defined late in the process.",
 "C14": " Modules are wired (pairs, fan-out, fan-in, operators, disconnects) between attachments.",
 "C15": " An attached MetaModule whose song was saved is exported stand-alone after its embedded project was edited; label chunks as other writers leave them (text after the NUL, unterminated, padded).",
 "C17": " Deep copies of wired modules are edited (and the original edited against the copy); after 150 / 1500 loads failing inside nested containers valid nested files and clones behave as before.",
 "C18": " Lenient loads are repeated with warnings turned into errors; files in other formats (gzip, bz2, xz, zip, text, empty) are handed over by name under the descriptor monitor.",
 "C19": " Notes of locally defined Note subclasses and projects carrying lambdas / local helper objects; foreign-owned notes under warnings-as-errors.",
 "C20": " Other writers (direct assignments, a second bundle) move the destination between strictly rising sends.",
}
# round 9
EXTRA3 = {
 "C01": " Deterministic schedules of several threads (rvmon.sched: loaders next to attach / note / save tasks on their own objects, switching at I/O calls) and free-running saving threads must give each task its single-thread result.",
 "C02": " Written files are read back through every stream kind (buffered, raw, r+b, mmap, gzip/bz2/lzma.open) for payloads of 64 KiB and more.",
 "C03": " Names with lone surrogates are refused or written as UTF-8; SpectraVoice rows written through either of its two paths in any order reach the file.",
 "C04": " The same bytes are loaded through every stream kind and under odd relative file names.",
 "C05": " Module lists re-ordered by list operations are saved (index / hash unchanged); threads each saving their own objects get single-thread bytes.",
 "C07": " connect() is also called by keyword and through functools.partial.",
 "C08": " Thread schedules as in C01; big embedded projects are loaded again after the first copy was re-wired.",
 "C09": " A load-free thread mix (fan-out, MetaModule mirroring, construction, saving) with strictness probes inside change handlers: every out-of-range assignment is refused.",
 "C10": " Nested proxies (outer slot onto an inner MetaModule's slot); application refinements of the range classes.",
 "C11": " Subclasses that re-declare a ranged option or add options after the stock class was used.",
 "C12": " Patterns printed before they are sized; deep-copy backups taken during the operation sequences keep their image.",
 "C13": " ... and after application classes referred to, deep-copied and edited, or borrowed the class-level tables.",
 "C14": " Thread schedules as in C01 (attach worlds and 16-bit note images next to loads of old-version files).",
 "C15": " copy.copy templates and falsy MetaModule subclasses, at top level and nested.",
 "C16": " Pickled, deep-copied and shallow-copied instruments (legacy layouts included) save the same bytes.",
 "C17": " Patterns re-created field by field, deep-copied, pickled; every public spelling of attaching a module owned elsewhere.",
 "C18": " Big caller-supplied pipe / socket / gzip streams and text-mode file objects under the descriptor monitor.",
 "C19": " Note subclasses that are falsy when empty.",
 "C20": " One Mapping object in two slots; curve tables as tuple / array / numpy arrays; mappings naming controllers the target lacks.",
}
# round 10
EXTRA4 = {
 "C03": " Patterns resized after their cells existed and cleared; Samplers fed through load_chunk() or from files without instrument record, edited.",
 "C04": " Loaded MetaModules are addressed through u_<label> aliases (unlabelled controllers in front of labelled ones).",
 "C05": " Instruments in all older record layouts are sources; read-only helpers run between the saves.",
 "C06": " Read-only helpers (play-order view, tabular views, printing) run between load and edit.",
 "C07": " Modules whose owner was named at construction; falsy application Project subclasses.",
 "C08": " Hubs of 17-48 links whose hub is a module of any type; loads through the reader classes.",
 "C09": " Floats / Fractions / Decimals just outside a range are refused; handlers that correct the value they are told about.",
 "C10": " An application-written module type with a unit-dependent controller; over-long multi-byte instrument names next to the record fields.",
 "C11": " numpy scalars as option values.",
 "C12": " Patterns given another size and cleared inside the operation sequences.",
 "C13": " ... application types declaring controllers with library bounds (then narrowing their own ranges in place) and options excluding inherited ones.",
 "C14": " The loader's keyword in duplicate / foreign attaches; += with the library's ModuleList.",
 "C15": " numpy integers as values of exposed controllers.",
 "C16": " Saves failing part-way through the instrument record, repaired and repeated; legacy instruments moved to the current layout and edited.",
 "C17": " The class-level state (behaviours and other collections) of every module class and a bystander instance are compared before / after the type's workload; MultiCtl routing copies.",
 "C18": " Lenient files carry other (also newer) version stamps.",
 "C19": " Patterns made smaller after their notes existed; cells addressed from the end.",
 "C20": " reflect() queries leave windows and directions as they were; every third project is a falsy application subclass.",
}
# round 12
EXTRA6 = {
 "C01": " Saves go into positioned streams (behind a header, append mode, r+b).",
 "C02": " Saves into positioned streams; MetaModules whose mapped embedded modules were taken out by hand.",
 "C03": " Projects whose module / pattern lists were edited by hand.",
 "C05": " State a save does not write (hidden labels, directly edited tables) is left alone.",
 "C08": " Saves into positioned streams.",
 "C09": " An application type's own ranges are widened in place first; aliases after relabelling.",
 "C10": " Options arriving through load_chunk on an attached MetaModule; refused assignments leave value and stored form.",
 "C11": " Records with both members of an exclusive pair on.",
 "C12": " Songs with several patterns of equal header; sub-field setters on attached notes.",
 "C13": " The hostile phase also passes type names as strings and loads an oversized embedded project.",
 "C14": " Positions emptied by hand (unwired modules), then attachments and re-attachments.",
 "C15": " Exposed controllers onto unstored targets with absolute expectations; every controller inside a loaded MetaModule edited.",
 "C16": " Instruments loaded / cloned twice; samples of exact power-of-two sizes.",
 "C17": " Files that spell out defaults, loaded twice and edited in place.",
 "C18": " Non-boolean settings; files locked by another handle.",
 "C19": " The callable attaches the pattern during the edit.",
 "C20": " Targets of extended types; bundles reloaded with freed in-links.",
}
# round 11
EXTRA5 = {
 "C01": " One Sample object may serve two slots.",
 "C02": " Modules loaded from older-layout files (fewer CVALs) get their newer controllers and MIDI bindings edited; flag bits without a name.",
 "C03": " Files of other writers with SNAM fields of other sizes are loaded and written again.",
 "C04": " Instruments as other writers store them (an envelope chunk left out, undocumented CHFF bits, a slot without waveform block).",
 "C05": " Pattern lists with chains of clones are sources.",
 "C06": " Both ends of the note map addressed by note; modules renamed to words of the format; blank-padded text fields.",
 "C07": " Application module subclasses that are falsy / iterable containers take part as operands.",
 "C08": " Graphs are re-wired after loading files of any stamp (top level, in a MetaModule, in a Sampler's effect).",
 "C09": " The Sampler's record controllers; members of other enums are taken by number.",
 "C10": " Application-type values go through files for every unit; a Sampler subclass with added controllers.",
 "C11": " Options records cut at any length; application aliases of all option declarations are defined before the workload.",
 "C12": " Very long patterns (up to 2**19 lines); embedded projects inside old outer files.",
 "C13": " The hostile phase also aims macro bundles at unexposed controllers and hands enum controllers odd spellings.",
 "C14": " Songs with 300 modules whose header is based on an older version; containerish module subclasses among the attached types.",
 "C16": " Instruments as other writers store them (see C04).",
 "C17": " Songs with several patterns / modules of identical content, loaded and cloned; bystanders keep refusing values a lenient load of their type carried; behaviours are part of the bystander snapshot.",
 "C18": " Injected I/O errors carry real errno values; loads with RAISE_RANGE_ERRORS_ON_READ set.",
 "C19": " Cells with velocity bytes above 129 and icons of other sizes (as files carry them).",
 "C20": " Bundles inside a MetaModule that exposes the target; bundles that drive bundles; wide windows on unscaled targets after failed loads.",
}
for _pid in CHECKS:
    CHECKS[_pid]["text"] += EXTRA.get(_pid, "") + EXTRA2.get(_pid, "") + EXTRA3.get(_pid, "") + EXTRA4.get(_pid, "") + EXTRA5.get(_pid, "") + EXTRA6.get(_pid, "") + " In half of the shards the process has seen a few loads fail before the workload starts." + " A few shards of every run are replayed with DEBUG logging and under python -O, -W error and -bb."
