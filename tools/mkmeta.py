import json, os, subprocess, sys, concurrent.futures as cf
exec(open('/verif/tools/seed_meta_src.py').read())
head = subprocess.check_output(['git','-C','/repo','rev-parse','--short','HEAD']).decode().strip()
def run(sid):
    prop, what, needs = META[sid]
    # own property check + the matrix result (other checks) from the background run
    p = subprocess.run(['/verif/tools/eval_seeded.py', f'/verif/seeded/{sid}', '--checks', prop], capture_output=True, text=True)
    d = json.loads(p.stdout)
    others = []
    try:
        m = json.load(open(f'/var/tmp/matrix/{sid}.json'))
        others = sorted(c for c in m.get('caught_by', []) if c != prop)
    except Exception:
        # no matrix run at hand: keep what an earlier matrix run recorded
        try:
            others = json.load(open(f'/verif/seeded/{sid}/meta.json')).get("also_caught_by_quick_tier_of", [])
        except Exception:
            pass
    meta = {
        "id": sid, "property": prop,
        "change": what,
        "needs_to_manifest": needs,
        "source": "written by an independent sub-agent that saw only the property text and a scratch worktree of /repo (nothing from /verif)",
        "confirmed_by_me": {
            "repo_commit": head,
            "patch_applies": d.get("apply") == 0,
            "repository_suite_with_change": d.get("suite"),
            "demo_on_clean_tree": d["demo_clean"], "demo_with_change": d["demo_patched"],
            "command": f"tools/eval_seeded.py seeded/{sid} --checks {prop}   (rsync copy of /repo, git apply, pytest, demo.py, ./check with RVMON_REPO=<copy>)",
        },
        "own_property_check": {prop: d["checks"][prop]},
        "caught_by_own_check": prop in d.get("caught_by", []),
        "also_caught_by_quick_tier_of": others,
    }
    json.dump(meta, open(f'/verif/seeded/{sid}/meta.json', 'w'), indent=1)
    return sid, meta["caught_by_own_check"], d.get("suite"), d["demo_clean"]["rc"], d["demo_patched"]["rc"], d["checks"][prop]["keys"][:2]
with cf.ThreadPoolExecutor(4) as ex:
    only = set(sys.argv[1:])
    for r in ex.map(run, sorted(k for k in META if not only or k[-1] in only or k in only)):
        print(*r)
