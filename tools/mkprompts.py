#!/venv/bin/python
"""Writes the prompts for one round of independent seeding agents:  tools/mkprompts.py <round-number> [<extra advice file>]
Creates /tmp/seed<N>_prompts/Cxx.txt; worktrees are expected at /tmp/wt<N>-Cxx (git -C /repo worktree add --detach), outputs go to
/tmp/seeds<N>/Cxx/{a,b}.  Each agent sees ONLY its property's text and the list of earlier changes (never anything from /verif)."""
import json, os, re, sys
HERE = os.path.dirname(os.path.abspath(__file__))
exec(open(os.path.join(HERE, 'seed_meta_src.py')).read())
n = int(sys.argv[1])
advice = open(sys.argv[2]).read().strip() if len(sys.argv) > 2 else ""
head = open(os.path.join(HERE, 'seed_prompt_head.txt')).read()
tail = open(os.path.join(HERE, 'seed_prompt_tail.txt')).read()
os.makedirs(f'/tmp/seed{n}_prompts', exist_ok=True)
os.makedirs(f'/tmp/seeds{n}', exist_ok=True)
for line in open(os.path.join(HERE, '..', 'properties.jsonl')):
    p = json.loads(line)
    pid = p['id']
    prev = [(k, v) for k, v in sorted(META.items()) if v[0] == pid]
    items = []
    for k, (pp, what, needs) in prev:
        files = set()
        for l in open(os.path.join(HERE, '..', 'seeded', k, 'patch.diff')):
            if l.startswith('+++ b/'):
                files.add(l[6:].strip().replace('src/python/', ''))
        needs1 = re.sub(r'^(Needed to manifest|Needs all of|Needs, all together|To manifest|Trigger)\**:?\s*\**', '', needs)
        needs1 = needs1 if len(needs1) < 110 else needs1[:110] + '...'
        items.append(f"  - [{', '.join(sorted(files))}] {what[:100]} (needs: {needs1})")
    body = (f"Here is a semantic property that the library is supposed to satisfy:\n\n-----\n{pid}: {p['title']}\n\nStatement: {p['statement']}\n\n"
            f"Quantified: {p['quantifier']['text']}\n\n-----\n\n"
            f"This is round {n}. Earlier rounds already produced the {len(prev)} changes below for this property (file in brackets); do NOT repeat them or close variants "
            f"(a different code site AND a different triggering condition are required). The harness catches all of them.\n{advice}\n" + "\n".join(items) + "\n\n")
    wt, out = f'wt{n}-{pid}', f'seeds{n}/{pid}'
    open(f'/tmp/seed{n}_prompts/{pid}.txt', 'w').write(head.replace('{WT}', wt).replace('{OUT}', out) + body + tail.replace('{WT}', wt).replace('{OUT}', out))
print(f"/tmp/seed{n}_prompts written")
