#!/bin/bash
# usage: evalall.sh C07 C12 ...   (evaluates /tmp/seeds/<id>/{a,b} against check <id>)
for id in "$@"; do for s in a b; do
  d=${BASE:-/tmp/seeds}/$id/$s
  [ -f $d/patch.diff ] || { echo "$id/$s: no patch"; continue; }
  /verif/tools/eval_seeded.py $d --checks ${CHECKS:-$id} --tier ${TIER:-quick} 2>&1 | python3 -c "
import json,sys
try:
    d=json.load(sys.stdin)
except Exception as e:
    print('$id/$s: eval error', e); sys.exit()
print('$id/$s', 'apply=%s'%d.get('apply'), 'suite=[%s]'%d.get('suite','')[:34], 'demo clean/patched=%s/%s'%(d.get('demo_clean',{}).get('rc'), d.get('demo_patched',{}).get('rc')), 'CAUGHT' if d.get('caught_by') else 'MISSED', d.get('caught_by'), [ (c, v['rc'], v['keys'][:2]) for c,v in d.get('checks',{}).items()])
"
done; done
