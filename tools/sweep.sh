#!/bin/bash
# usage: sweep.sh tier seeds...
tier=$1; shift
for s in "$@"; do for c in C01 C02 C03 C04 C05 C06 C07 C08 C09 C10 C11 C12 C13 C14 C15 C16 C17 C18 C19 C20; do
  out=$(cd /verif && VERIF_SEED=$s RVMON_EVIDENCE_DIR=/var/tmp/sweep-ev RVMON_REPLAY_DIR=/var/tmp/sweep-rp ./check $c $tier 2>&1)
  rc=$?
  echo "seed=$s $c rc=$rc $(echo "$out" | tail -1 | cut -c1-120)"
  if [ $rc -ne 0 ]; then echo "$out" | grep -E "witness|INCONCLUSIVE" | head -5 | cut -c1-400; fi
done; done
echo SWEEP-DONE
