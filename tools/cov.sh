#!/bin/bash
# usage: tools/cov.sh [checks...]   -> line/branch coverage of rv under the quick tier of the given checks (default: all)
# development aid only; results under /var/tmp/rvmon-cov
D=/var/tmp/rvmon-cov; rm -rf $D; mkdir -p $D
checks=${@:-C01 C02 C03 C04 C05 C06 C07 C08 C09 C10 C11 C12 C13 C14 C15 C16 C17 C18 C19 C20}
for c in $checks; do
  (cd /verif && RVMON_COVERAGE=$D RVMON_EVIDENCE_DIR=$D/ev RVMON_REPLAY_DIR=$D/rp ./check $c quick 2>&1 | tail -1)
done
cd $D && /venv/bin/python -m coverage combine --data-file=$D/.coverage $D/.coverage.* >/dev/null 2>&1
/venv/bin/python -m coverage report --data-file=$D/.coverage --show-missing --skip-covered 2>/dev/null | cut -c1-230
