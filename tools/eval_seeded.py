#!/usr/bin/env python3
"""Evaluate seeded property-breaking changes (development tool).

  tools/eval_seeded.py <dir-with patch.diff + demo.py> [--checks C01,C05] [--tier quick]

Copies /repo's working tree to a scratch dir, confirms: demo passes on the clean copy, patch applies,
the repository's test suite still gives the baseline, demo fails with the patch; then runs the named
checks against the patched copy (RVMON_REPO) and prints which fired.  Scratch is removed afterwards.
"""
import argparse
import json
import os
import shutil
import subprocess
import sys
import tempfile

VERIF = os.path.dirname(os.path.dirname(os.path.abspath(__file__)))


def sh(cmd, cwd=None, env=None, timeout=3600):
    p = subprocess.run(cmd, cwd=cwd, env=env, capture_output=True, text=True, timeout=timeout)
    return p.returncode, p.stdout + p.stderr


def main():
    ap = argparse.ArgumentParser()
    ap.add_argument("dir")
    ap.add_argument("--checks", required=True)
    ap.add_argument("--tier", default="quick")
    ap.add_argument("--skip-tests", action="store_true")
    ap.add_argument("--seed", default="0")
    a = ap.parse_args()
    d = os.path.abspath(a.dir)
    base = tempfile.mkdtemp(prefix="rvmon-seed.", dir=os.environ.get("TMPDIR", "/var/tmp"))
    out = {"dir": d, "checks": {}}
    try:
        scratch = os.path.join(base, "repo")
        subprocess.run(["rsync", "-a", "--exclude", ".git", "--exclude", "node_modules", "--exclude", "__pycache__", "/repo/", scratch + "/"], check=True)
        env = dict(os.environ, PYTHONPATH=os.path.join(scratch, "src/python"), PYTHONDONTWRITEBYTECODE="1")
        rc, o = sh(["/venv/bin/python", os.path.join(d, "demo.py")], cwd=scratch, env=env, timeout=600)
        out["demo_clean"] = {"rc": rc, "tail": o.strip().splitlines()[-1:] }
        rc, o = sh(["git", "apply", "--whitespace=nowarn", os.path.join(d, "patch.diff")], cwd=scratch)
        out["apply"] = rc
        if rc != 0:
            out["apply_err"] = o[-500:]
            print(json.dumps(out, indent=1))
            return 2
        if not a.skip_tests:
            rc, o = sh(["/venv/bin/python", "-m", "pytest", "-q", "-p", "no:cacheprovider", "--timeout=900", "--continue-on-collection-errors"], cwd=scratch, env=env)
            out["suite"] = o.strip().splitlines()[-1] if o.strip() else str(rc)
        rc, o = sh(["/venv/bin/python", os.path.join(d, "demo.py")], cwd=scratch, env=env, timeout=600)
        out["demo_patched"] = {"rc": rc, "tail": o.strip().splitlines()[-1:]}
        cenv = dict(os.environ, RVMON_REPO=scratch, RVMON_EVIDENCE_DIR=os.path.join(base, "ev"), RVMON_REPLAY_DIR=os.path.join(base, "rp"),
                    PYTHONHASHSEED="0", VERIF_SEED=a.seed)
        for c in a.checks.split(","):
            rc, o = sh([os.path.join(VERIF, "check"), c, a.tier], cwd=VERIF, env=cenv)
            keys = sorted({l.split("key=", 1)[1].split(": ")[0][:110] for l in o.splitlines() if l.strip().startswith("witness key=")})
            out["checks"][c] = {"rc": rc, "fired": "VIOLATION property=" in o, "keys": keys[:5], "tail": o.strip().splitlines()[-1][:160] if o.strip() else ""}
        out["caught_by"] = [c for c, v in out["checks"].items() if v["rc"] == 1 and v["fired"]]
        print(json.dumps(out, indent=1))
        return 0
    finally:
        shutil.rmtree(base, ignore_errors=True)


if __name__ == "__main__":
    sys.exit(main())
