#!/bin/bash
ALL=C01,C02,C03,C04,C05,C06,C07,C08,C09,C10,C11,C12,C13,C14,C15,C16,C17,C18,C19,C20
ls -d /verif/seeded/C* | xargs -P 3 -I{} sh -c '/verif/tools/eval_seeded.py {} --checks '$ALL' > /var/tmp/matrix/$(basename {}).json 2>/var/tmp/matrix/$(basename {}).err'
echo MATRIX-DONE
