#!/bin/bash
# usage: tools/run_all.sh <tier> [seed]   - runs every check once; prints one line per check
tier=${1:-quick}; export VERIF_SEED=${2:-0}
cd "$(dirname "$0")/.."
for c in C01 C02 C03 C04 C05 C06 C07 C08 C09 C10 C11 C12 C13 C14 C15 C16 C17 C18 C19 C20; do
  out=$(./check $c $tier 2>&1); rc=$?
  echo "rc=$rc $(echo "$out" | tail -1 | cut -c1-140)"
  [ $rc -ne 0 ] && echo "$out" | grep -E "witness|INCONCLUSIVE" | head -6 | cut -c1-500
done
echo ALL-DONE
